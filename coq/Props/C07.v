(* C07 — Channels establish, converge and keep working across rotation and restart.
   PARTIAL.  Proved: at the session level, liveness over all adversarial prefixes
   (C06: every schedule over a pair's own messages, then a fair suffix, reaches
   ready and data flows); at the channel level, establishment from ANY pair of
   reachable channel states in which no handshake is in progress (whatever
   sessions they remember), convergence of a simultaneous open, and the facts
   about expiry, rotation and Send below.  Not proved: convergence of two whole
   channels from states with half-finished handshakes left by an adversarial
   prefix; that is explored on the model-tied harness (not a proof). *)
From P2PV Require Import Lib.Base Model.Handshake Model.Channel Proofs.HandshakeP Proofs.ChannelP Proofs.ChannelNP Proofs.ChannelLiveP Model.Timer Proofs.TimerP.
From Coq Require Import Lia ZifyBool ZifyN.
Open Scope N_scope.

(* session level: whatever happened to the handshake messages of a pair (lost,
   reordered, duplicated, reflected, data overtaking RespDone), two rounds of
   retransmission bring both sessions to ready *)
Theorem C07_session_recovers : forall acts p,
  run init_pair acts = Ok p -> under_limit p ->
  exists p', fair_suffix p = Ok p' /\ is_ready (p_i p') = true /\ is_ready (p_r p') = true.
Proof.
  intros acts p Hp Hu. destruct (run_inv acts init_pair inv_init) as [_ B].
  destruct (recovers p (proj1 (B p Hp)) Hu) as (p' & E & _ & _ & Ri & Rr). eauto.
Qed.

(* a session that keeps receiving is not torn down for idleness: the current
   session survives the expiry step unless it is past RejectAfterTime or nothing
   was received through it for longer than KeepAliveTimeout *)
Theorem C07_no_idle_teardown : forall ch se,
  ch_s1 ch = Some se -> expired se = false -> (ch_lr ch <= KEEPALIVE)%Z ->
  ch_s1 (expire ch) = Some se.
Proof.
  intros ch se E1 Hx Hl. unfold expire, expire2, expire1, expire0.
  assert (E1' : ch_s1 (match ch_s0 ch with Some se0 => if expired se0 then set_slot ch 0 None else ch | None => ch end) = Some se)
    by (destruct (ch_s0 ch) as [s0|]; [destruct (expired s0)|]; exact E1).
  assert (L' : ch_lr (match ch_s0 ch with Some se0 => if expired se0 then set_slot ch 0 None else ch | None => ch end) = ch_lr ch)
    by (destruct (ch_s0 ch) as [s0|]; [destruct (expired s0)|]; reflexivity).
  set (c0 := match ch_s0 ch with Some se0 => if expired se0 then set_slot ch 0 None else ch | None => ch end) in *.
  rewrite E1', Hx, L'. destruct (Z.ltb_spec KEEPALIVE (ch_lr ch)); [lia|]. cbn [orb].
  destruct (ch_s2 c0) as [s2|]; [destruct (expired s2)|]; exact E1'.
Qed.

(* application data received through the current session refreshes lastReceived *)
Theorem C07_receive_refreshes : forall ch, ch_lr (set_lr ch 0) = 0%Z.
Proof. reflexivity. Qed.

(* rotation: when the prospective session is promoted the old current session
   stays available as the previous one (it still decrypts what is in flight) *)
Theorem C07_rotation_keeps_previous : forall accept ch ch',
  on_ready accept ch = (ch', true) -> ch_s0 ch' = ch_s1 ch /\ ch_s1 ch' = ch_s2 ch /\ ch_s2 ch' = None.
Proof.
  intros accept ch ch'. unfold on_ready. cbn [slot].
  destruct (ch_s2 ch) as [se|]; [|discriminate].
  destruct (ch_remote ch) as [k|].
  - destruct (k =? _); [|discriminate]. intros [= <-]. cbn. auto.
  - destruct (accept _); [|discriminate]. intros [= <-]. cbn. auto.
Qed.

(* Send goes out whenever a current session exists after the expiry step and has not hit its message limit *)
Theorem C07_send_when_current : forall ch se,
  ch_s1 (expire ch) = Some se -> c_ready se = true -> s_nonce (cs se) < MAX_NONCE ->
  exists ch' w, chan_send ch = (ch', Some w).
Proof.
  intros ch se E1 Hr Hn. unfold chan_send. cbn [slot]. rewrite E1.
  assert (Hx : expired se = false).
  { unfold expire, expire2 in E1. destruct (ch_s2 (expire1 (expire0 ch))) as [s2|] eqn:E2.
    - destruct (expired s2); cbn in E1; revert E1; unfold expire1;
        destruct (ch_s1 (expire0 ch)) as [s1|] eqn:E1'; try destruct (expired s1 || _) eqn:Eo; cbn; try discriminate;
        rewrite ?E1'; intros [= ->]; apply Bool.orb_false_iff in Eo; tauto.
    - revert E1; unfold expire1;
        destruct (ch_s1 (expire0 ch)) as [s1|] eqn:E1'; try destruct (expired s1 || _) eqn:Eo; cbn; try discriminate;
        rewrite ?E1'; intros [= ->]; apply Bool.orb_false_iff in Eo; tauto. }
  rewrite Hx. unfold send. destruct (N.leb_spec MAX_NONCE (s_nonce (cs se))); [lia|].
  unfold c_ready, is_ready in Hr. apply Bool.andb_true_iff in Hr as [Hs _]. rewrite Hs. cbn [negb]. eauto.
Qed.

(* ---- channel level: establishment ---- *)

(* the rekey timer that a blocked Send arms creates the initiator session and emits its InitHello *)
Theorem C07_rekey_starts_handshake : forall fA rank ts A,
  ch_s2 (expire A) = None ->
  ch_s2 (fst (chan_rekey fA rank ts A)) = Some (init0 fA rank ts) /\
  In (emit (fst (chan_rekey fA rank ts A)) (init0 fA rank ts) MIH) (snd (chan_rekey fA rank ts A)).
Proof. exact rekey_starts. Qed.

(* From ANY two channel states satisfying the invariant of all reachable states
   (ChannelNP.InvP), with no handshake in progress at the peer — whatever previous
   and current sessions either side still holds, of whatever age — the four
   handshake messages delivered in order over a reliable network establish a new
   current session on both sides bound to each other's keys, the pending Send goes
   out through it and the peer hands its data up.  [established] spells out the
   six steps as equations on chan_deliver / chan_send. *)
Theorem C07_channel_establishes : forall accept A B fA fB f1 f2 f3 f4 rank ts,
  InvP accept A -> InvP accept B ->
  ch_s2 A = Some (init0 fA rank ts) -> bound_ok accept A (ch_key B) ->
  ch_s2 B = None -> fresh_tag B fB -> orank_ne (ch_s0 B) rank -> orank_ne (ch_s1 B) rank ->
  ts <? ch_rts B = false -> bound_ok accept B (ch_key A) ->
  exists B1, chan_deliver accept fB B (emit A (init0 fA rank ts) MIH) =
               Ok (B1, DSend (emit B1 (resp1 fB fA (ch_key A) rank ts) MRH)) /\
             established accept A B1 fA fB f1 f2 f3 f4 rank ts.
Proof. exact establish_inv. Qed.

(* simultaneous open: both sides started a handshake and the InitHellos cross.
   The side whose session id ranks lower keeps its initiator session (and repeats
   its InitHello), the other gives its own up for a responder session, and the
   handshake completes as above: both converge on ONE session pair. *)
Theorem C07_simultaneous_open_converges : forall accept A B fA fX fB f0 f1 f2 f3 f4 rA tsA rB tsB,
  rA < rB ->
  ch_s2 A = Some (init0 fA rA tsA) -> otag_ne (ch_s0 A) fA -> otag_ne (ch_s1 A) fA ->
  oready (ch_s0 A) -> oready (ch_s1 A) -> bound_ok accept A (ch_key B) ->
  orank_ne (ch_s0 A) rB -> orank_ne (ch_s1 A) rB -> tsB <? ch_rts A = false ->
  ch_s2 B = Some (init0 fX rB tsB) -> orank_ne (ch_s0 B) rA -> orank_ne (ch_s1 B) rA ->
  otag_ne (ch_s0 B) fB -> otag_ne (ch_s1 B) fB -> tsA <? ch_rts B = false -> bound_ok accept B (ch_key A) ->
  chan_deliver accept f0 A (emit B (init0 fX rB tsB) MIH) = Ok (A, DSend (emit A (init0 fA rA tsA) MIH)) /\
  exists B1, chan_deliver accept fB B (emit A (init0 fA rA tsA) MIH) =
               Ok (B1, DSend (emit B1 (resp1 fB fA (ch_key A) rA tsA) MRH)) /\
             established accept A B1 fA fB f1 f2 f3 f4 rA tsA.
Proof. exact simultaneous_open_converges. Qed.

(* the same, starting from the pending Send itself: no current session survives the
   expiry step and no handshake is in progress, so the rekey timer the Send arms creates
   the initiator session and emits the InitHello; then as above *)
Theorem C07_pending_send_completes : forall accept A B fA fB f1 f2 f3 f4 rank ts,
  InvP accept A -> InvP accept B -> fresh_tag A fA -> ch_s2 (expire A) = None ->
  bound_ok accept A (ch_key B) ->
  ch_s2 B = None -> fresh_tag B fB -> orank_ne (ch_s0 B) rank -> orank_ne (ch_s1 B) rank ->
  ts <? ch_rts B = false -> bound_ok accept B (ch_key A) ->
  let A1 := fst (chan_rekey fA rank ts A) in
  In (emit A1 (init0 fA rank ts) MIH) (snd (chan_rekey fA rank ts A)) /\
  exists B1, chan_deliver accept fB B (emit A1 (init0 fA rank ts) MIH) =
               Ok (B1, DSend (emit B1 (resp1 fB fA (ch_key A1) rank ts) MRH)) /\
             established accept A1 B1 fA fB f1 f2 f3 f4 rank ts.
Proof. exact pending_send_completes. Qed.

(* retransmission: every firing of the handshake timer re-sends the message the
   prospective session is waiting to have answered, as long as that session has not
   expired (with C07_timer_keeps_firing: until it is answered) *)
Theorem C07_handshake_timer_retransmits : forall accept ch se,
  InvP accept ch -> ch_s2 ch = Some se -> expired se = false -> awaiting se ->
  exists k, write_handshake (cs se) = Ok (Some k) /\
            ch_s2 (fst (chan_handshake ch)) = Some se /\
            In (emit (fst (chan_handshake ch)) se k) (snd (chan_handshake ch)).
Proof. exact handshake_timer_retransmits. Qed.

(* the hypotheses of C07_channel_establishes are met by states that carry old sessions *)
Example C07_establish_not_vacuous :
  let old (t : N) (ini : bool) (k : N) := mkCS (with_hs (new_sess ini) 4 None 40) t (Some (t + 100)) (Some k) t 5 30 in
  let A := mkCh 1 (Some (old 10 true 2)) (Some (old 11 false 2)) (Some (init0 12 77 9)) (Some 2) 5 100 in
  let B := mkCh 2 (Some (old 20 true 1)) (Some (old 21 false 1)) None (Some 1) 5 100 in
  InvP (fun _ => true) A /\ InvP (fun _ => true) B /\
  bound_ok (fun _ => true) A 2 /\ bound_ok (fun _ => true) B 1 /\ fresh_tag B 22 /\
  orank_ne (ch_s0 B) 77 /\ orank_ne (ch_s1 B) 77 /\ (9 <? ch_rts B) = false.
Proof. exact establish_not_vacuous. Qed.

(* ---- the timer behind retransmission (p/p2pke/timer.go) ---- *)

(* a Reset made by the timer's own callback is not lost: an armed timer whose
   callback re-arms it b more times fires exactly b+1 times, then is idle.  This is
   what keeps handshake messages being retransmitted until they are answered. *)
Theorem C07_timer_keeps_firing : forall b t fuel, t_pending t = true -> t_budget t = b -> (b < fuel)%nat ->
  let t' := quiesce fuel t in t_fires t' = (t_fires t + S b)%nat /\ t_pending t' = false.
Proof. exact fires_until_budget_spent. Qed.

Theorem C07_timer_stopped_is_silent : forall t evs, t_pending t = false ->
  (forall e, In e evs -> e = TElapse \/ e = TStop) ->
  t_fires (trun t evs) = t_fires t /\ t_pending (trun t evs) = false.
Proof. exact stopped_never_fires. Qed.

Print Assumptions C07_session_recovers.
Print Assumptions C07_no_idle_teardown.
Print Assumptions C07_rotation_keeps_previous.
Print Assumptions C07_send_when_current.
Print Assumptions C07_rekey_starts_handshake.
Print Assumptions C07_channel_establishes.
Print Assumptions C07_simultaneous_open_converges.
Print Assumptions C07_timer_keeps_firing.
Print Assumptions C07_timer_stopped_is_silent.
Print Assumptions C07_pending_send_completes.
Print Assumptions C07_handshake_timer_retransmits.

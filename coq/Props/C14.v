(* C14 — Concurrent use is free of data races and callbacks own their buffers.
   PARTIAL: data-race freedom is a property of the Go memory model; it is checked
   by running the concurrent scenarios of C01/C05/C11/C12/C13 under the Go race
   detector.  What is proved is the ownership protocol of the hubs: while a
   callback runs with a deliverer's message, that deliverer (the owner of the
   buffer) is blocked and can do nothing but wait for the callback to end, and
   nobody else is handed the message; and the buffer protocol of the bounded queue
   (swarmutil.Queue): every buffer is in exactly one place, Deliver writes only
   into a buffer taken from the freelist, a buffer handed to a callback stays
   out of circulation until that callback returns, and no buffer is lost. *)
From P2PV Require Import Lib.Base Model.Hub Proofs.HubP Model.Queue Model.QueueBuf Proofs.QueueBufP Proofs.QueueRefP.

(* while receiver r's callback runs with deliverer d's message, d stays committed
   to r whatever else happens in the system; the only event that releases it is
   the end of r's callback *)
Theorem C14_owner_blocked_during_callback : forall h e h' d r,
  h_d h d = DCommit r -> hstep h e = Some h' ->
  h_d h' d = DCommit r \/ (e = HCbEnd r /\ h_d h' d = DDone r).
Proof.
  intros h e h' d r Hc Hs. destruct (step_d_inv h e h' d Hs) as [Same|Chg]; [left; congruence|].
  destruct (h_d h' d) as [| | |r'|r'|[|] [r'|]] eqn:E'; try contradiction.
  - destruct Chg as [_ X]; congruence.
  - destruct Chg as [_ X]; congruence.
  - destruct Chg as [_ X]; congruence.
  - destruct Chg as [-> X]. right. rewrite Hc in X. injection X as <-. auto.
  - destruct Chg as [_ X]; congruence.
  - destruct Chg as [ce ->]. cbn in Hs. rewrite Hc in Hs. discriminate.
Qed.

(* the message is handed to nobody else, before or after *)
Theorem C14_single_reader : forall evs h, hrun hub0 evs = Some h ->
  forall d, count (is_meet_d d) evs <= 1.
Proof. intros evs h H. exact (proj1 (at_most_one_meet evs h H)). Qed.

(* and the deliverer only gets its buffer back (returns) after the callback has ended *)
Theorem C14_buffer_returned_after_callback : forall pre d h, hrun hub0 (pre ++ [HDlvRetOk d]) = Some h ->
  exists r, In (HMeet r d) pre /\ In (HCbEnd r) pre.
Proof. exact ok_after_callback. Qed.

(* ---- swarmutil.Queue: the buffers ---- *)

(* in every reachable state (any interleaving of Deliver, the two halves of any
   number of concurrent Receives, Purge and Close) every buffer is in exactly one
   place: the freelist, the queue, or the hands of one running callback *)
Theorem C14_queue_buffers_in_one_place : forall cap mtu evs s os,
  brun (new_bq cap mtu) evs = Some (s, os) ->
  NoDup (b_free s ++ map fst (b_queue s) ++ b_busy s) /\
  length (b_free s ++ map fst (b_queue s) ++ b_busy s) = b_cap s.
Proof. intros cap mtu evs s os H. exact (brun_inv evs _ _ _ (binv_new cap mtu) H). Qed.

(* the buffer a Deliver writes into is neither queued nor being read by a callback *)
Theorem C14_queue_deliver_writes_only_free : forall cap mtu evs s os m s' b,
  brun (new_bq cap mtu) evs = Some (s, os) -> bstep s (BDeliver m) = Some (s', BWrote b) ->
  ~ In b (b_busy s) /\ ~ In b (map fst (b_queue s)).
Proof. exact deliver_writes_only_free. Qed.

(* a buffer handed to a callback stays with it until that callback returns *)
Theorem C14_queue_busy_until_returned : forall s e s' o b,
  BInv s -> In b (b_busy s) -> bstep s e = Some (s', o) -> e <> BRecvEnd b ->
  In b (b_busy s') /\ ~ In b (b_free s') /\ ~ In b (map fst (b_queue s')).
Proof. exact busy_until_returned. Qed.

(* no buffer is lost: with no callback running, free + queued = capacity *)
Theorem C14_queue_no_slot_leak : forall cap mtu evs s os,
  brun (new_bq cap mtu) evs = Some (s, os) -> b_busy s = [] ->
  length (b_free s) + length (b_queue s) = cap.
Proof. exact no_slot_leak. Qed.

(* the buffer-level model and the message-level model of the queue (C12/C13) agree
   whenever one caller at a time uses it: same results for every operation sequence *)
Theorem C14_queue_models_agree : forall cap mtu ops,
  snd (bq_calls (new_bq cap mtu) ops) = snd (qrun (new_queue cap mtu) ops).
Proof. exact fresh_queue_models_agree. Qed.

Print Assumptions C14_owner_blocked_during_callback.
Print Assumptions C14_single_reader.
Print Assumptions C14_buffer_returned_after_callback.
Print Assumptions C14_queue_buffers_in_one_place.
Print Assumptions C14_queue_deliver_writes_only_free.
Print Assumptions C14_queue_busy_until_returned.
Print Assumptions C14_queue_no_slot_leak.
Print Assumptions C14_queue_models_agree.

(* C14 — Concurrent use is free of data races and callbacks own their buffers.
   PARTIAL: data-race freedom is a property of the Go memory model; it is checked
   by running the concurrent scenarios of C01/C05/C11/C12/C13 under the Go race
   detector.  What is proved is the ownership protocol of the hubs: while a
   callback runs with a deliverer's message, that deliverer (the owner of the
   buffer) is blocked and can do nothing but wait for the callback to end, and
   nobody else is handed the message. *)
From P2PV Require Import Lib.Base Model.Hub Proofs.HubP.

(* while receiver r's callback runs with deliverer d's message, d stays committed
   to r whatever else happens in the system; the only event that releases it is
   the end of r's callback *)
Theorem C14_owner_blocked_during_callback : forall h e h' d r,
  h_d h d = DCommit r -> hstep h e = Some h' ->
  h_d h' d = DCommit r \/ (e = HCbEnd r /\ h_d h' d = DDone r).
Proof.
  intros h e h' d r Hc Hs. destruct (step_d_inv h e h' d Hs) as [Same|Chg]; [left; congruence|].
  destruct (h_d h' d) as [| | |r'|r'|[|] [r'|]] eqn:E'; try contradiction.
  - destruct Chg as [_ X]; congruence.
  - destruct Chg as [_ X]; congruence.
  - destruct Chg as [_ X]; congruence.
  - destruct Chg as [-> X]. right. rewrite Hc in X. injection X as <-. auto.
  - destruct Chg as [_ X]; congruence.
  - destruct Chg as [ce ->]. cbn in Hs. rewrite Hc in Hs. discriminate.
Qed.

(* the message is handed to nobody else, before or after *)
Theorem C14_single_reader : forall evs h, hrun hub0 evs = Some h ->
  forall d, count (is_meet_d d) evs <= 1.
Proof. intros evs h H. exact (proj1 (at_most_one_meet evs h H)). Qed.

(* and the deliverer only gets its buffer back (returns) after the callback has ended *)
Theorem C14_buffer_returned_after_callback : forall pre d h, hrun hub0 (pre ++ [HDlvRetOk d]) = Some h ->
  exists r, In (HMeet r d) pre /\ In (HCbEnd r) pre.
Proof. exact ok_after_callback. Qed.

Print Assumptions C14_owner_blocked_during_callback.
Print Assumptions C14_single_reader.
Print Assumptions C14_buffer_returned_after_callback.

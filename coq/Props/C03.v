(* C03 — A session is usable only after the peer proved its key for this handshake.
   Sessions are driven by ARBITRARY inputs: any wire message (well-formed or not,
   replayed, spliced, forged with any key) and any Send, in any order. *)
From P2PV Require Import Lib.Base Model.Handshake Model.Session Proofs.SessionP Proofs.SessionP2.
Open Scope N_scope.

(* In every state reachable by any input sequence, a session that reports ready,
   accepts application data or agrees to encrypt (usable) has verified a
   channel-binding signature under exactly the key it reports as remote, over its
   own transcript hash, and that hash covers its own fresh ephemeral. *)
Theorem C03_gate : forall is_init me eph ts ins s log,
  srun (new_ssess is_init me eph ts) ins = Ok (s, log) ->
  usable s = true ->
  (exists r, x_remote s = Some r /\ x_verified s = Some (r, binding s)) /\ binding_fresh s.
Proof.
  intros is_init me eph ts ins s log Hr Hu.
  destruct (srun_inv ins _ (all_new is_init me eph ts)) as [_ H].
  destruct (H s log Hr) as (((Hst & Hbf & Hg & _) & _) & _). auto.
Qed.

(* The step that makes a session usable is the delivery of a message carrying
   TSig r "channel-binding" (this session's transcript hash) where r is the key
   reported afterwards: a timestamp signature (other purpose), a signature over
   another transcript (replay or splice) or by another key cannot do it,
   signatures being free constructors. *)
Theorem C03_only_by_signature : forall s i s' o w,
  all_inv s -> sstep s i = Ok (s', o, w) -> usable s = false -> usable s' = true ->
  exists wi r, i = InDeliver wi /\ x_remote s' = Some r /\
               presents wi (TSig r P_CB (binding s')) /\ binding_fresh s'.
Proof.
  intros s i s' o w (Hg & Hs & _) Hstep Hu Hu'.
  destruct (sstep_inv s i s' o w Hg Hs Hstep) as (_ & _ & _ & _ & _ & _ & T & _). exact (T Hu Hu').
Qed.

(* once usable, the authenticated key and the signed transcript never change, whatever arrives *)
Theorem C03_remote_stable : forall s ins s' log,
  all_inv s -> srun s ins = Ok (s', log) -> usable s = true ->
  x_remote s' = x_remote s /\ binding s' = binding s /\ usable s' = true.
Proof.
  intros s ins s' log Hall Hr Hu. destruct (srun_inv ins s Hall) as [_ H].
  destruct (H s' log Hr) as (_ & _ & _ & _ & Hus). exact (Hus Hu).
Qed.

(* application data is only ever handed out by a usable session *)
Theorem C03_app_needs_usable : forall s i s' pt w,
  all_inv s -> sstep s i = Ok (s', Some (XApp pt), w) -> usable s = true.
Proof.
  intros s i s' pt w (Hg & Hs & _) Hstep.
  destruct (sstep_inv s i s' _ w Hg Hs Hstep) as (_ & _ & _ & _ & _ & _ & _ & A & _). now destruct (A pt eq_refl).
Qed.

(* no input sequence makes a session panic *)
Theorem C03_no_panic : forall is_init me eph ts ins p,
  srun (new_ssess is_init me eph ts) ins <> Panic p.
Proof. intros. exact (proj1 (srun_inv ins _ (all_new is_init me eph ts)) p). Qed.

(* purposes are separated *)
Theorem C03_purpose_separation : forall k m k' m', TSig k P_TS m <> TSig k' P_CB m'.
Proof. intros k m k' m' H. discriminate. Qed.

(* non-vacuity: two honest sessions, canonical exchange: each reports the other's key *)
Example C03_honest_pair :
  let i0 := new_ssess true 1 100 7 in
  let r0 := new_ssess false 2 101 8 in
  match xwrite_handshake i0 with
  | Ok (Some m0) =>
    match xdeliver r0 m0 with
    | Ok (r1, XReply (Some m1)) =>
      match xdeliver i0 m1 with
      | Ok (i1, XReply (Some m2)) =>
        match xdeliver r1 m2 with
        | Ok (r2, XReply (Some m3)) =>
          match xdeliver i1 m3 with
          | Ok (i2, XReply None) =>
              xis_ready i2 = true /\ xis_ready r2 = true /\ x_remote i2 = Some 2 /\ x_remote r2 = Some 1
          | _ => False end
        | _ => False end
      | _ => False end
    | _ => False end
  | _ => False end.
Proof. vm_compute. repeat split; reflexivity. Qed.

Print Assumptions C03_gate.
Print Assumptions C03_only_by_signature.
Print Assumptions C03_remote_stable.
Print Assumptions C03_app_needs_usable.
Print Assumptions C03_no_panic.

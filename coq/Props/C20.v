(* C20 — Iterative DHT operations are bounded, non-redundant and report truthfully.
   The network is an arbitrary responder (call index, contacted node) |-> answer. *)
From P2PV Require Import Lib.Base Model.Distance Model.Dht Proofs.DhtP Proofs.DhtP2.
Open Scope N_scope.

(* termination, for every responder and every set of initial peers over ids of
   the peer-id size (cyclic, self-referential, enormous or fabricated lists included) *)
Theorem C20_find_terminates : forall len resp initial target validate,
  resp_wf len resp -> nodes_wf len initial -> exists fuel, dht_find fuel resp initial target validate <> None.
Proof. exact find_terminates. Qed.
Theorem C20_join_terminates : forall len resp initial target addpeer,
  resp_wf len resp -> nodes_wf len initial -> exists fuel, dht_join fuel resp initial target addpeer <> None.
Proof. exact join_terminates. Qed.
Theorem C20_get_terminates : forall len resp initial key validate,
  resp_wf len resp -> nodes_wf len initial -> exists fuel, dht_get fuel resp initial key validate <> None.
Proof. exact get_terminates. Qed.
Theorem C20_put_terminates : forall len resp initial key,
  resp_wf len resp -> nodes_wf len initial -> exists fuel, dht_put fuel resp initial key <> None.
Proof. exact put_terminates. Qed.

(* find node: each id asked at most once (NoDup of the ask log, every entry of
   which is a genuine call); Closest is a nearest node among all nodes visited;
   Contacted counts the nodes that answered; no error iff the target was reached *)
Theorem C20_find_truthful : forall fuel resp initial target validate st vis,
  dht_find fuel resp initial target validate = Some (Ok (st, vis)) ->
  genuine resp (f_log st) /\ NoDup (asked (f_log st)) /\
  (forall c, f_closest st = Some c -> is_nearest target (n_id c) vis) /\
  (forall x, In x (asked (f_log st)) -> In x vis) /\
  f_contacted st = lenN (filter (fun p => a_ok (snd p)) (f_log st)) /\
  (find_err target st = false <-> exists c, f_closest st = Some c /\ n_id c = target).
Proof. exact find_truthful. Qed.

(* join: every visited node is asked exactly once, in visiting order; the added
   count is the number of asked nodes AddPeer accepted *)
Theorem C20_join_truthful : forall fuel resp initial target addpeer st vis,
  dht_join fuel resp initial target addpeer = Some (Ok (st, vis)) ->
  genuine resp (j_log st) /\ NoDup (asked (j_log st)) /\ asked (j_log st) = rev vis /\
  j_added st = lenN (filter addpeer (map fst (j_log st))).
Proof. exact join_truthful. Qed.

(* get: at most once; counts exact; Closest is a nearest responder; a reported
   value was returned by the contacted node From and passed Validate; an error
   exactly when no value is reported *)
Theorem C20_get_truthful : forall fuel resp initial key validate st vis,
  dht_get fuel resp initial key validate = Some (Ok (st, vis)) ->
  genuine resp (g_log st) /\ NoDup (asked (g_log st)) /\
  g_contacted st = lenN (g_log st) /\ g_responded st = lenN (responders (g_log st)) /\
  (forall c, g_closest st = Some c -> is_nearest key c (responders (g_log st))) /\
  (g_closest st = None -> responders (g_log st) = []) /\
  (get_err st = true -> g_value st = None) /\
  (forall f, g_from st = Some f ->
     exists nd a v, In (nd, a) (g_log st) /\ n_id nd = f /\ a_ok a = true /\
                    a_value a = Some v /\ validate v = true /\ g_value st = Some v).
Proof. exact get_truthful. Qed.

(* put: at most once; Accepted is the number of DISTINCT nodes that accepted;
   Closest is a nearest accepting node; error exactly when below the effective minimum *)
Theorem C20_put_truthful : forall fuel resp initial key st vis,
  dht_put fuel resp initial key = Some (Ok (st, vis)) ->
  genuine resp (p_log st) /\ NoDup (asked (p_log st)) /\
  p_contacted st = lenN (p_log st) /\ p_responded st = lenN (responders (p_log st)) /\
  p_accepted st = lenN (accepters (p_log st)) /\ NoDup (accepters (p_log st)) /\
  (forall c, p_closest st = Some c -> is_nearest key c (accepters (p_log st))) /\
  (forall min, put_err min st = true <-> (Z.of_N (lenN (accepters (p_log st))) < eff_min min)%Z).
Proof. exact put_truthful. Qed.

(* no panic for any size of Initial, empty included *)
Theorem C20_no_panic : forall fuel resp initial key s,
  (forall validate, dht_find fuel resp initial key validate <> Some (Panic s)) /\
  (forall addpeer, dht_join fuel resp initial key addpeer <> Some (Panic s)) /\
  (forall validate, dht_get fuel resp initial key validate <> Some (Panic s)) /\
  dht_put fuel resp initial key <> Some (Panic s).
Proof. exact no_panic. Qed.

(* non-vacuity: a self-referential, cyclic responder (B names A and itself, A
   names B) — the design-time re-contact example — terminates with each asked once *)
Definition nA := mkNode [1] [10]. Definition nB := mkNode [2] [11].
Definition ex_resp : responder := fun _ nd =>
  if bytes_eqb (n_id nd) [2] then mkAns true [nA; nB] None true else mkAns true [nB] None true.
Example C20_nonvacuous :
  exists st vis, dht_put 10 ex_resp [nA; nB] [0] = Some (Ok (st, vis)) /\
                 asked (p_log st) = [[1]; [2]] /\ p_accepted st = 2 /\ put_err 0 st = false.
Proof. vm_compute. do 2 eexists. repeat split; reflexivity. Qed.

Print Assumptions C20_find_terminates.
Print Assumptions C20_put_terminates.
Print Assumptions C20_find_truthful.
Print Assumptions C20_join_truthful.
Print Assumptions C20_get_truthful.
Print Assumptions C20_put_truthful.
Print Assumptions C20_no_panic.

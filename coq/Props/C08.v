(* C08 — No bytes from the network can crash a node. *)
From P2PV Require Import Lib.Base Lib.Varint Model.Mux Model.Frag Model.Mbapp Model.Chk Model.Handshake Model.Channel
  Proofs.MuxP Proofs.ChkP Proofs.ChannelP Proofs.ChannelNP.
Open Scope N_scope.

(* The receive paths are modelled with Go's run-time checks explicit (Model/Chk.v):
   an index or slice out of range, and every explicit panic(), is a Panic result.
   For EVERY sequence of (source, byte string) pairs, of any length, whatever the
   earlier packets announced, the run never reaches Panic; a packet that is
   refused leaves the state as it was and the next packet is served. *)

(* s/fragswarm *)
Theorem C08_frag_no_panic : forall pkts st site, frag_run st pkts <> Panic site.
Proof. exact frag_run_no_panic. Qed.

(* p/mbapp: from the initial state (every reachable state keeps one bitmap bit per announced part) *)
Theorem C08_mbapp_no_panic : forall mtu pkts site, mb_run mtu [] pkts <> Panic site.
Proof. intros mtu pkts site. apply mb_run_no_panic. exact mb_wf_init. Qed.

(* and the checked paths compute what the models used by C09/C10 compute *)
Theorem C08_frag_chk_eq : forall st src pkt, frag_recv_chk st src pkt = frag_recv st src pkt.
Proof. exact frag_recv_chk_eq. Qed.
Theorem C08_mbapp_chk_eq : forall mtu st src pkt, mb_wf st ->
  mb_recv_chk mtu st src pkt = mb_recv mtu st src pkt /\
  (forall st' d, mb_recv mtu st src pkt = Ok (st', d) -> mb_wf st').
Proof. exact mb_recv_chk_step. Qed.

(* p/p2pke parseInitHello (the only hand-written slicing in the P2PKE message parsers):
   every byte string; neither body[len-2:] nor body[start:len-2] can be out of range *)
Theorem C08_parse_init_hello_no_panic : forall body site, parse_init_hello_chk body <> Panic site.
Proof. exact parse_init_hello_no_panic. Qed.

(* p/p2pmux: every demultiplexer, every byte string *)
Theorem C08_mux_no_panic : forall k b site, unframe k b <> Panic site.
Proof. exact unframe_no_panic. Qed.

(* p/p2pke Channel: in every history of a channel (deliveries of arbitrary wire
   messages, timer firings, sends, ageing) whose newly created sessions get tags
   not yet in use, no operation panics: neither Channel.Deliver's panic(i) for a
   session that becomes ready outside the prospective slot, nor writeHandshake's
   missing cached message, is reachable *)
Theorem C08_channel_never_panics : forall (accept : N -> bool) key ops,
  never_panics accept (new_chan key) ops.
Proof. intros accept key ops. apply channel_never_panics. apply invp_new. Qed.

(* non-vacuity: the inconsistent-fragment sequence that crashed the unrepaired
   fragswarm (total 2 then part 3 of 5 for the same id) and the negative-offset
   sequence for mbapp are served without Panic, and the models do have reachable
   Panic sites when the guard is absent *)
Example C08_frag_inconsistent :
  frag_run [] [([1], [0; 0; 2; 7]); ([1], [0; 3; 5; 8]); ([1], [0; 1; 2; 9])] <> Panic P_FRAG_INDEX /\
  parts_set [None; None] 3 [8] = Panic P_FRAG_INDEX.
Proof. split; [apply frag_run_no_panic|reflexivity]. Qed.
Example C08_mbapp_bit_site : bit_get [false; false] 2 = Panic P_MB_BIT /\ slice_from [1; 2] 3 P_MB_SLICE = Panic P_MB_SLICE.
Proof. split; reflexivity. Qed.

Print Assumptions C08_frag_no_panic.
Print Assumptions C08_mbapp_no_panic.
Print Assumptions C08_frag_chk_eq.
Print Assumptions C08_mbapp_chk_eq.
Print Assumptions C08_mux_no_panic.
Print Assumptions C08_channel_never_panics.
Print Assumptions C08_parse_init_hello_no_panic.

(* C13 — Cancellation is prompt and each message is handed to exactly one receiver. *)
From P2PV Require Import Lib.Base Model.Hub Proofs.HubP Model.Queue Proofs.QueueP Run.RunQueue Proofs.QueueRunP.

(* Over EVERY event list the hub transition system accepts — any number of
   concurrent Receive/ServeAsk and Deliver calls, any interleaving with
   cancellations of their contexts and with Close: *)

(* a message is handed to at most one callback and a call receives at most one message *)
Theorem C13_exactly_one : forall evs h, hrun hub0 evs = Some h ->
  (forall d, count (is_meet_d d) evs <= 1) /\ (forall r, count (is_meet_r r) evs <= 1).
Proof. exact at_most_one_meet. Qed.

(* Deliver returns success only after the chosen callback has finished with the message *)
Theorem C13_success_after_callback : forall pre d h, hrun hub0 (pre ++ [HDlvRetOk d]) = Some h ->
  exists r, In (HMeet r d) pre /\ In (HCbEnd r) pre.
Proof. exact ok_after_callback. Qed.

(* ... and an error only if no callback ever saw it, before or after *)
Theorem C13_error_means_unseen : forall pre post d ce h,
  hrun hub0 (pre ++ HDlvRetErr d ce :: post) = Some h ->
  count (is_meet_d d) (pre ++ HDlvRetErr d ce :: post) = 0.
Proof. exact err_never_met. Qed.

(* a parked call whose context is cancelled can return at once (it is never
   stuck behind a competing call); nobody returns a context error unprovoked *)
Theorem C13_cancel_enabled : forall h r d,
  (h_r h r = RWait -> h_rc h r = true -> hstep h (HRecvRetErr r false) <> None) /\
  (h_d h d = DOffer -> h_dc h d = true -> hstep h (HDlvRetErr d false) <> None).
Proof.
  intros h r d. split; intros E C.
  - exact (proj2 (parked_receiver_can_leave h r E) C).
  - exact (proj2 (parked_deliverer_can_leave h d E) C).
Qed.

(* a message is not lost because a competing receiver was cancelled: cancelling
   receiver r changes nothing but r's flag, every other parked pair can still meet *)
Theorem C13_cancel_loses_nothing : forall h r r' d h',
  hstep h (HCancelR r) = Some h' -> h_r h r' = RWait -> h_d h d = DOffer ->
  hstep h' (HMeet r' d) <> None.
Proof. intros h r r' d h' [= <-] Er Ed. cbn. rewrite Er, Ed. discriminate. Qed.

(* non-vacuity: two receivers, two deliverers, a cancellation and a close *)
Example C13_nonvacuous :
  hrun hub0 [HRecvCall 0; HRecvCall 1; HDlvCall 0; HMeet 1 0; HCancelR 0; HRecvRetErr 0 false; HDlvCall 1;
             HCbEnd 1; HDlvRetOk 0; HCloseBegin; HDlvRetErr 1 true; HCloseEnd] <> None /\
  hrun hub0 [HRecvCall 0; HDlvCall 0; HMeet 0 0; HDlvRetOk 0] = None.
Proof. split; [vm_compute; discriminate|vm_compute; reflexivity]. Qed.

(* ---- swarmutil.Queue: each accepted message is handed out exactly once ---- *)

(* for every operation sequence on a fresh queue: the messages Deliver accepted
   are, in order, exactly those that have left the queue (each once: handed to a
   Receive callback, purged, or dropped by Close) followed by those still queued;
   the queue never holds more than its capacity *)
Theorem C13_queue_exactly_once : forall cap mtu ops,
  let '(q, h) := qhrun (new_queue cap mtu) (mkH [] []) ops in
  h_accepted h = map fst (h_left h) ++ q_items q /\ length (q_items q) <= cap.
Proof. exact queue_exactly_once. Qed.

(* Receive hands out the oldest queued message and removes exactly it *)
Theorem C13_queue_receive_is_oldest : forall q m q', qstep q QReceive = (q', QGot m) -> q_items q = m :: q_items q'.
Proof. exact receive_is_oldest. Qed.

(* a Deliver that reports false left no trace; one that reports true stored the message as given *)
Theorem C13_queue_refused_unseen : forall q m, snd (qstep q (QDeliver m)) = QRefused -> fst (qstep q (QDeliver m)) = q.
Proof. exact refused_unseen. Qed.
Theorem C13_queue_accepted_stored : forall q m, snd (qstep q (QDeliver m)) = QAccepted ->
  q_items (fst (qstep q (QDeliver m))) = q_items q ++ [m] /\ length (q_payload m) <= q_mtu q.
Proof. exact accepted_stored. Qed.

(* the verdict the runner computes on a real queue's results never blames results the model produces *)
Theorem C13_queue_verdict_sound : forall ops q,
  length (q_items q) <= q_cap q -> (q_closed q = true -> q_items q = []) ->
  p_qseq (q_cap q) (q_mtu q) (q_closed q) (q_items q) ops (map sx_of_qout (snd (qrun q ops))) = Run.RunFrag.ok.
Proof. exact model_results_pass. Qed.

Print Assumptions C13_exactly_one.
Print Assumptions C13_success_after_callback.
Print Assumptions C13_error_means_unseen.
Print Assumptions C13_cancel_enabled.
Print Assumptions C13_cancel_loses_nothing.
Print Assumptions C13_queue_exactly_once.
Print Assumptions C13_queue_receive_is_oldest.
Print Assumptions C13_queue_refused_unseen.
Print Assumptions C13_queue_accepted_stored.
Print Assumptions C13_queue_verdict_sound.

(* C13 — Cancellation is prompt and each message is handed to exactly one receiver. *)
From P2PV Require Import Lib.Base Model.Hub Proofs.HubP.

(* Over EVERY event list the hub transition system accepts — any number of
   concurrent Receive/ServeAsk and Deliver calls, any interleaving with
   cancellations of their contexts and with Close: *)

(* a message is handed to at most one callback and a call receives at most one message *)
Theorem C13_exactly_one : forall evs h, hrun hub0 evs = Some h ->
  (forall d, count (is_meet_d d) evs <= 1) /\ (forall r, count (is_meet_r r) evs <= 1).
Proof. exact at_most_one_meet. Qed.

(* Deliver returns success only after the chosen callback has finished with the message *)
Theorem C13_success_after_callback : forall pre d h, hrun hub0 (pre ++ [HDlvRetOk d]) = Some h ->
  exists r, In (HMeet r d) pre /\ In (HCbEnd r) pre.
Proof. exact ok_after_callback. Qed.

(* ... and an error only if no callback ever saw it, before or after *)
Theorem C13_error_means_unseen : forall pre post d ce h,
  hrun hub0 (pre ++ HDlvRetErr d ce :: post) = Some h ->
  count (is_meet_d d) (pre ++ HDlvRetErr d ce :: post) = 0.
Proof. exact err_never_met. Qed.

(* a parked call whose context is cancelled can return at once (it is never
   stuck behind a competing call); nobody returns a context error unprovoked *)
Theorem C13_cancel_enabled : forall h r d,
  (h_r h r = RWait -> h_rc h r = true -> hstep h (HRecvRetErr r false) <> None) /\
  (h_d h d = DOffer -> h_dc h d = true -> hstep h (HDlvRetErr d false) <> None).
Proof.
  intros h r d. split; intros E C.
  - exact (proj2 (parked_receiver_can_leave h r E) C).
  - exact (proj2 (parked_deliverer_can_leave h d E) C).
Qed.

(* a message is not lost because a competing receiver was cancelled: cancelling
   receiver r changes nothing but r's flag, every other parked pair can still meet *)
Theorem C13_cancel_loses_nothing : forall h r r' d h',
  hstep h (HCancelR r) = Some h' -> h_r h r' = RWait -> h_d h d = DOffer ->
  hstep h' (HMeet r' d) <> None.
Proof. intros h r r' d h' [= <-] Er Ed. cbn. rewrite Er, Ed. discriminate. Qed.

(* non-vacuity: two receivers, two deliverers, a cancellation and a close *)
Example C13_nonvacuous :
  hrun hub0 [HRecvCall 0; HRecvCall 1; HDlvCall 0; HMeet 1 0; HCancelR 0; HRecvRetErr 0 false; HDlvCall 1;
             HCbEnd 1; HDlvRetOk 0; HCloseBegin; HDlvRetErr 1 true; HCloseEnd] <> None /\
  hrun hub0 [HRecvCall 0; HDlvCall 0; HMeet 0 0; HDlvRetOk 0] = None.
Proof. split; [vm_compute; discriminate|vm_compute; reflexivity]. Qed.

Print Assumptions C13_exactly_one.
Print Assumptions C13_success_after_callback.
Print Assumptions C13_error_means_unseen.
Print Assumptions C13_cancel_enabled.
Print Assumptions C13_cancel_loses_nothing.

(* C19 — Nearest-first queries really are nearest-first and complete. *)
From P2PV Require Import Lib.Base Model.Distance Model.Cache
  Proofs.DistanceP Proofs.CacheP Proofs.CacheP3 Proofs.CacheP4 Proofs.ForEachP.
From Coq Require Import Sorting.Permutation Sorting.Sorted.
Open Scope N_scope.

(* DistanceCmp agrees with byte-wise comparison of the XOR distances: all lengths *)
Theorem C19_cmp_spec : forall x a b,
  distance_cmp x a b = lex_compare (distance x a) (distance x b).
Proof. exact cmp_spec. Qed.

(* DistanceLz is the number of leading zero bits of the distance: all lengths *)
Theorem C19_lz_spec : forall a b, distance_lz a b = leading_zeros (distance a b).
Proof. exact distance_lz_spec. Qed.

(* it is a total preorder ... *)
Theorem C19_preorder : forall x,
  (forall a, distance_cmp x a a <> Gt) /\
  (forall a b c, distance_cmp x a b <> Gt -> distance_cmp x b c <> Gt -> distance_cmp x a c <> Gt) /\
  (forall a b, distance_cmp x a b <> Gt \/ distance_cmp x b a <> Gt).
Proof. intros x. split; [exact (dle_refl x)|]. split; [exact (dle_trans x)|exact (dle_total x)]. Qed.

(* ... symmetric in the distance ... *)
Theorem C19_sym : forall a b, distance a b = distance b a.
Proof. exact distance_sym. Qed.

(* ... and zero exactly between equal keys (equal lengths; the unequal-length
   counterexample is C19_zero_unequal_lengths) *)
Theorem C19_zero_iff : forall a b, length a = length b ->
  (all_zero (distance a b) = true <-> a = b).
Proof. exact distance_zero_iff. Qed.

Theorem C19_zero_unequal_lengths : all_zero (distance [1] [1; 2]) = true /\ [1] <> [1; 2].
Proof. exact distance_zero_unequal_lengths. Qed.

(* Enumeration relative to any key visits every entry exactly once, in
   non-decreasing distance: for every cache reachable by any operation history. *)
Theorem C19_foreach : forall L mx mn c k,
  reachable L mx mn c -> wf_bytes (c_locus c) = true -> wf_bytes k = true -> keys_fit c ->
  Permutation (for_each c k) (contents c) /\
  StronglySorted (fun e1 e2 => distance_cmp k (e_key e1) (e_key e2) <> Gt) (for_each c k).
Proof.
  intros L mx mn c k Hr HL Hk Hf.
  exact (foreach_sorted_complete c k HL Hk (inv_placed c (reachable_inv _ _ _ _ Hr) Hf)).
Qed.

(* the loop as written in the source (two passes with a deferred list) is that enumeration *)
Theorem C19_code_loop : forall c k, for_each_code c k = for_each c k.
Proof. exact for_each_code_eq. Qed.

Theorem C19_closest : forall L mx mn c k e,
  reachable L mx mn c -> wf_bytes (c_locus c) = true -> wf_bytes k = true -> keys_fit c ->
  closest c k = Some e ->
  In e (contents c) /\ forall e', In e' (contents c) -> distance_cmp k (e_key e) (e_key e') <> Gt.
Proof.
  intros L mx mn c k e Hr HL Hk Hf.
  exact (closest_is_min c k e HL Hk (inv_placed c (reachable_inv _ _ _ _ Hr) Hf)).
Qed.

Theorem C19_closest_none : forall c k, closest c k = None <-> contents c = [].
Proof. exact closest_none_iff_empty. Qed.

(* the closer-than-me query returns all and only the entries nearer than the locus *)
Theorem C19_closer : forall L mx mn c x,
  reachable L mx mn c -> wf_bytes (c_locus c) = true -> wf_bytes x = true -> keys_fit c ->
  forall e, In e (for_each_closer c x) <->
            In e (contents c) /\ distance_cmp x (e_key e) (c_locus c) = Lt.
Proof.
  intros L mx mn c x Hr HL Hk Hf.
  exact (closer_exact c x HL Hk (inv_placed c (reachable_inv _ _ _ _ Hr) Hf)).
Qed.

(* non-vacuity: a reachable three-entry cache (the design-time counterexample of
   the old loop: locus 00, entries 40 and 20, query 80) meets the hypotheses and
   is enumerated 20 (distance a0) before 40 (distance c0) *)
Definition ex_ops : list (op * bytes) :=
  [(OPut [64] [1] 1 0, []); (OPut [32] [2] 2 0, []); (OPut [129] [3] 3 0, [])].
Example C19_nonvacuous :
  exists c0 c, new_cache [0] 8 0 = Ok c0 /\ run c0 ex_ops = Ok c /\
            wf_bytes (c_locus c) = true /\ keys_fit c /\
            map e_key (for_each c [128]) = [[129]; [32]; [64]].
Proof.
  eexists. eexists. split; [vm_compute; reflexivity|]. split; [vm_compute; reflexivity|].
  split; [reflexivity|]. split; [|vm_compute; reflexivity].
  intros e He. vm_compute in He.
  destruct He as [<-|[<-|[<-|[]]]]; split; vm_compute; auto.
Qed.

Print Assumptions C19_cmp_spec.
Print Assumptions C19_lz_spec.
Print Assumptions C19_preorder.
Print Assumptions C19_sym.
Print Assumptions C19_zero_iff.
Print Assumptions C19_foreach.
Print Assumptions C19_code_loop.
Print Assumptions C19_closest.
Print Assumptions C19_closer.

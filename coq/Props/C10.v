(* C10 — Reassembly never invents or mixes messages (s/fragswarm and p/mbapp). *)
From P2PV Require Import Lib.Base Lib.Varint Model.Frag Model.Mbapp Proofs.FragP Proofs.MbappP.
Open Scope N_scope.

(* For every ledger of sent messages with distinct (source, id), every schedule
   of deliveries of genuine fragments of those messages from their true source
   (any order, any multiplicity, any omissions) interleaved with any cleanups of
   partial state: every payload handed up is exactly the payload of a ledger
   message of that source, and (no partial delivery) every fragment of that
   message had been delivered by then. *)
Theorem C10_reassembly_sound : forall L, NoDup (map s_key L) ->
  forall acts, Forall (ok_action L) acts ->
  forall src p seen, In (src, p, seen) (run_sched [] [] acts) ->
    exists m, In m L /\ s_src m = src /\ s_payload m = p /\
              forall f, In f (fragments (s_id m) (s_chunks m)) -> In (src, f) seen.
Proof. intros L Hnd acts Hall. exact (reassembly_sound L Hnd acts [] [] (inv_init L) Hall). Qed.

(* genuine fragments are what the sender model emits *)
Theorem C10_sender_emits_fragments : forall inner cfg id payload,
  (1 <= under_mtu inner)%Z -> (Z.of_N (lenN payload) <= frag_mtu inner cfg)%Z ->
  let cs := chunks (Z.to_nat (under_mtu inner)) payload in
  frag_tell inner cfg id payload = Ok (fragments id cs) /\ concat cs = payload /\ lenN cs <= 255 /\
  Forall (fun c => Z.of_N (lenN c) <= under_mtu inner)%Z cs.
Proof. exact frag_tell_ok. Qed.

(* non-vacuity: two interleaved 3-fragment messages from two sources, one
   fragment duplicated, delivered out of order *)
Definition mA := mkSent [48] 0 [[1; 2]; [3; 4]; [5]].
Definition mB := mkSent [49] 0 [[9; 9]; [8; 8]; [7]].
Definition fa i := nth i (fragments 0 (s_chunks mA)) [].
Definition fb i := nth i (fragments 0 (s_chunks mB)) [].
Definition ex_sched : list action :=
  [ADeliver [48] (fa 2); ADeliver [49] (fb 0); ADeliver [48] (fa 0); ADeliver [48] (fa 0);
   ADeliver [49] (fb 2); ADeliver [48] (fa 1); ADeliver [49] (fb 1)].
Example C10_nonvacuous :
  NoDup (map s_key [mA; mB]) /\ Forall (ok_action [mA; mB]) ex_sched /\
  map (fun d => (fst (fst d), snd (fst d))) (run_sched [] [] ex_sched) = [([48], [1; 2; 3; 4; 5]); ([49], [9; 9; 8; 8; 7])].
Proof.
  split; [cbn; apply NoDup_cons; [intros [H|[]]; discriminate|apply NoDup_cons; [intros []|constructor]]|]. split; [|vm_compute; reflexivity].
  assert (WA : wf_sent mA) by (split; [reflexivity|vm_compute; discriminate]).
  assert (WB : wf_sent mB) by (split; [reflexivity|vm_compute; discriminate]).
  repeat constructor; cbn [ok_action];
    first [exists mA; split; [now left|]; split; [exact WA|]; split; [reflexivity|]; vm_compute; tauto
          |exists mB; split; [right; now left|]; split; [exact WB|]; split; [reflexivity|]; vm_compute; tauto].
Qed.

(* ---- p/mbapp ---- *)
(* For every ledger of sent messages with distinct (source, origin time, counter,
   ask/reply bits), whatever part size each sender used, every schedule of
   genuine packets of those messages from their true sources (any order, any
   multiplicity, any omissions) interleaved with any cleanups of partial state:
   every payload the collector hands on is exactly the payload of a ledger
   message of that source. *)
Theorem C10_mbapp_reassembly_sound : forall L mtu, NoDup (map ms_key L) ->
  forall acts, Forall (mb_ok_action L) acts ->
  forall src p, In (src, p) (mb_run_sched mtu [] acts) ->
    exists m, In m L /\ ms_src m = src /\ ms_payload m = p.
Proof. intros L mtu Hnd acts Hall. exact (mb_reassembly_sound L mtu Hnd acts [] (mb_inv_init L) Hall). Qed.

(* what the sender emits for a message is genuine for it (the header survives
   the wire: parse_mb (encode_header h ++ body) = (h, body)) *)
Theorem C10_mbapp_sender_genuine : forall inner (h0 : mb_header) src payload pkts,
  (1 <= part_size inner)%Z ->
  h_origin h0 < 2 ^ 32 -> h_counter h0 < 2 ^ 32 -> h_timeout h0 < 2 ^ 32 -> h_err h0 < 256 ->
  lenN payload < 2 ^ 32 -> lenN (chunks (Z.to_nat (part_size inner)) payload) < 2 ^ 16 ->
  mb_send inner h0 payload = Ok pkts ->
  let m := mkMs src (h_origin h0) (h_counter h0) (h_ask h0) (h_reply h0) (Z.to_nat (part_size inner)) payload in
  wf_ms m /\ forall pkt, In pkt pkts -> genuine_mb [m] src pkt.
Proof. exact mb_send_genuine. Qed.

Theorem C10_mbapp_header_roundtrip : forall h body, hdr_in_range h -> parse_mb (encode_header h ++ body) = Ok (h, body).
Proof. exact parse_encode. Qed.

(* non-vacuity: a 5-byte message in 2-byte parts, sent by the model sender,
   delivered last part first with a duplicate *)
Definition mb_h0 := mkHdr false false 0 77 3 0 0 0 9.
Example C10_mbapp_nonvacuous :
  match mb_send 26 mb_h0 [1; 2; 3; 4; 5] with
  | Ok [p0; p1; p2] =>
      mb_run_sched 65536 [] [MDeliver [48] p2; MDeliver [48] p0; MDeliver [48] p0; MDeliver [48] p1] = [([48], [1; 2; 3; 4; 5])]
  | _ => False
  end.
Proof. vm_compute. reflexivity. Qed.

Print Assumptions C10_reassembly_sound.
Print Assumptions C10_mbapp_reassembly_sound.
Print Assumptions C10_mbapp_sender_genuine.
Print Assumptions C10_mbapp_header_roundtrip.
Print Assumptions C10_sender_emits_fragments.

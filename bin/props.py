"""Per-property configuration of bin/check."""

COMMON_TRUSTED = [
    'Coq 8.16.1 kernel (coqc; vm_compute used for finite sweeps and witnesses; native_compute not used)',
    'Coq extraction to OCaml with ExtrOcamlBasic only (Extract Inductive for bool, option, unit, list, prod, sumbool, sumor; no Extract Constant); OCaml 4.13.1',
    'coq/Extract/driver.ml: hand-written s-expression I/O around the extracted runner',
    '/verif/translator: reading of Go syntax/types into coq/Gen/Generated.v',
    '/verif/harness: generators, observation and canonicalisation of implementation behaviour (differential test, not a proof)',
    'axioms declared by this development: none',
]

PROPS = {
    'C15': {
        'coq': ['Props/C15.v', 'Tie/T_C15.v'],
        'rule': 'cases are generated from one splitmix64 stream: frames of boundary-biased channel ids (empty/1/127-129/16383-16384 byte strings, NUL/0xFF bytes; integers 0,1,127,128,2^14,2^32-1,2^63,2^64-1) and payloads (empty, 1 byte, header-like, random); demux of valid, mutated, truncated, over-long and non-minimal inputs; end-to-end tells/asks between two real muxes over memswarm with 1-6 near-colliding channels open, plus raw bytes injected beneath the receiving mux. distinct = distinct case text; all cases count as non-trivial except frames with an empty channel and empty payload',
        'theorems': 'C15_roundtrip, C15_injective, C15_prefix_free, C15_isolation, C15_never_cross, C15_no_panic, C15_body_is_suffix (all channel ids of each kind, all payloads, all sets of open channels)',
        'trusted': ['encoding/binary PutUvarint/Uvarint/BigEndian modelled arithmetically in coq/Lib/Varint.v (tied by correspondence on captured frames)',
                    'sync.Map lookup by channel id modelled as list membership'],
        'level_text': 'Theorems (closed under the global context) prove round-trip, injectivity, prefix-freedom and isolation of the framing model for every channel id, payload and set of open channels; the model is tied to the code on every run by running the real muxes and the extracted model on the same generated cases (frames captured from the wire, demux of adversarial bytes, end-to-end dispatch between two muxes).',
        'level_note': 'Trusted: Coq kernel, extraction + driver.ml, harness, translator; encoding/binary and sync.Map are modelled. The proof is about coq/Model/Mux.v; the correspondence is a differential test over generated cases.',
        'assumptions': ['memswarm delivers muxed frames unchanged (it is the transport under test in C01)'],
    },
    'C18': {
        'coq': ['Props/C18.v'],
        'rule': 'operation histories (5-260 ops: put with fresh/zero/negative CreatedAt and zero/short/past expiry, AddPeer-style update, delete, expire, get) on real caches with locus of 0-4 or 32 bytes, per-bucket minimum -1..3, capacity at/around the constructor bound (rejected configurations included), key pools biased to share 0..all leading bits with the locus, and a "fill every bucket to its minimum" prefix; after EVERY op the harness records the result, Count() and the full contents. A history is non-trivial when it reaches capacity or uses delete/expire; distinct = distinct case text',
        'theorems': 'C18_no_panic, C18_count_exact, C18_bounded, C18_refines_map, C18_no_silent_loss, C18_victim_farthest, C18_expire_exact over every operation history, locus, capacity and minimum the constructor accepts, and every eviction oracle',
        'trusted': ['Go map iteration order modelled as an oracle (victim among newest-ties is reported by the implementation and checked by the model)',
                    'time.Time modelled as an integer offset from the zero time'],
        'level_text': 'Theorems prove, for every reachable cache of the model (induction over operation lists): count = entries held <= capacity, pointwise refinement to a map, no silent loss, victim = newest entry of the farthest bucket above its minimum, exact expiry, no panic. The model is tied to the code by replaying every generated history on the real Cache and on the extracted model and comparing result, Count and full contents after every operation; the property predicate is also evaluated on the implementation observations.',
        'level_note': 'Trusted: Coq kernel, extraction + driver.ml, harness. Map iteration order is an oracle; times are integers. Proof is about coq/Model/Cache.v.',
        'assumptions': ['harness times are small offsets from the zero time'],
    },
    'C19': {
        'coq': ['Props/C19.v'],
        'rule': 'caches of 1-12 entries (locus 1, 2 or 32 bytes; keys equal to or longer than the locus, biased to share 0..all leading bits with it) queried with keys that are empty, shorter than the locus, equal to the locus, longer than the entry keys, or share a chosen number of leading bits; queries: ForEach (full visit sequence), Closest, ForEachCloser, ForEachMatching. Non-trivial: at least two non-empty buckets deeper than the common prefix of locus and query, or a query shorter than the locus',
        'theorems': 'C19_cmp_spec, C19_preorder, C19_sym, C19_zero_iff (all byte strings of all lengths), C19_foreach (permutation of contents and non-decreasing distance for every reachable cache and every query key), C19_code_loop, C19_closest, C19_closer',
        'trusted': ['slices.SortFunc modelled as insertion sort (any sort yields the same sequence up to the order of equidistant entries, which both sides canonicalise)'],
        'level_text': 'Theorems prove the comparison laws for all byte strings and, for every reachable cache and every query key, that the enumeration is a permutation of the contents in non-decreasing XOR distance (hence Closest is a minimum and ForEachCloser returns all and only the nearer entries). Tied to the code by comparing visit sequences and query results of the real Cache with the extracted model and by evaluating sortedness/completeness directly on the implementation output.',
        'level_note': 'Hypotheses of C19_foreach: well-formed bytes and entry keys at least as long as the locus (shorter keys are bucketed by padding but compared by truncation; excluded and reported in DESIGN.md). Trusted: Coq kernel, extraction + driver.ml, harness.',
        'assumptions': ['entry keys are at least as long as the locus'],
    },
    'C20': {
        'coq': ['Props/C20.v', 'Tie/T_C20.v'],
        'rule': 'simulated networks of 3-30 nodes (ring, clique, star, random sparse; optionally containing the all-zero id) whose nodes answer honestly, fail, return everyone / themselves / the initial peers / a cycle / 40-10000 fabricated ids creeping towards the key; 0-21 initial peers with duplicates; the four operations with both validation rules and MinAccepted -1..3. The harness records every Ask (node, answer) in order; the model is replayed on the recorded answers and must predict the same contact sequence and result. Non-trivial: an adversarial responder answered or at least two nodes were contacted',
        'theorems': 'C20_{find,join,get,put}_terminates (every responder over peer-id-sized ids), C20_{find,join,get,put}_truthful (ask log genuine and NoDup, nearest/closest, value provenance and validation, accepted = distinct accepting nodes, error iff below effective minimum), C20_no_panic',
        'trusted': ['slices.SortFunc modelled as insertion sort (the harness generates 32-byte keys and distinct ids so that the order is total)'],
        'level_text': 'Theorems prove termination (well-founded measure over the finite id space), at-most-once contact and truthful results of the four iterative operations for EVERY responder function, by a loop invariant carried through dhtIterate. Tied to the code by replaying recorded Ask/answer histories from real DHTFindNode/DHTJoin/DHTGet/DHTPut runs on the extracted model (same contact sequence, same result struct) and by evaluating the property predicate on the implementation output; widths handed to dhtIterate are translator facts.',
        'level_note': 'Trusted: Coq kernel, extraction + driver.ml, harness, translator. Closest ranges over visited nodes (find), responders (get), accepting nodes (put); see DESIGN.md.',
        'assumptions': ['ids have the fixed peer-id length; get/put keys of 32 bytes in the correspondence (no distance ties)'],
    },
    'C17': {
        'coq': ['Props/C17.v', 'Tie/T_C17.v'],
        'rule': 'public keys with OIDs of 0-12 arcs (arcs 0, 127/128, 2^14, 2^21, 2^28 boundaries, MaxInt32 and beyond, invalid first/second arcs, too few arcs) and key bodies nil/empty/zero/0-600 bytes (DER short/long length boundaries 125-129, 255-257): marshal bytes vs model, parse-back, EqualPublicKeys vs encoding equality; ParsePublicKey on valid, bit-flipped, truncated, extended and random bytes (lenient accepts compared through re-marshal); fingerprints of both layers and of a re-parsed key; peer ids (zero, all-ones, random): text, every kind of candidate text (one symbol mutated to a foreign symbol / another alphabet symbol / different trailing bits, lengths 0,1,42,44, 43 x "!", random), order of texts vs order of ids for pairs sharing long prefixes. distinct = distinct case text',
        'theorems': 'C17_spki_roundtrip, C17_spki_invalid, C17_equal_iff_encoding, C17_fingerprint_function_of_key, C17_peerid_roundtrip, C17_peerid_order, C17_peerid_rejects',
        'trusted': ['encoding/asn1 modelled as the strict DER codec of coq/Lib/Der.v (Go accepts more encodings; those are compared through re-marshalling)',
                    'encoding/base64 modelled in coq/Lib/Base64.v', 'SHA-3 / SHAKE are opaque: only equality of fingerprints is observed'],
        'level_text': 'Theorems prove, for every valid algorithm identifier and key body, that the SubjectPublicKeyInfo encoding round-trips and is injective (so key equality = encoding equality and the fingerprint is a function of the key for any hash), and for every 32-byte id that its text encoding round-trips, preserves order and is the ONLY text the parser accepts. Tied to the code by byte-for-byte comparison of MarshalPublicKey / MarshalText output and of parser acceptance on valid and mutated inputs; the alphabet and sizes are translator facts.',
        'level_note': 'Known findings (reported as KNOWN-FINDING): the two layers hash with different functions; arcs above MaxInt32 marshal but do not parse. Trusted: Coq kernel, extraction + driver.ml, harness, translator.',
        'assumptions': ['hash functions are deterministic functions of their input'],
    },
}

"""Per-property configuration of bin/check."""

COMMON_TRUSTED = [
    'Coq 8.16.1 kernel (coqc; vm_compute used for finite sweeps and witnesses; native_compute not used)',
    'Coq extraction to OCaml with ExtrOcamlBasic only (Extract Inductive for bool, option, unit, list, prod, sumbool, sumor; no Extract Constant); OCaml 4.13.1',
    'coq/Extract/driver.ml: hand-written s-expression I/O around the extracted runner',
    '/verif/translator: reading of Go syntax/types into coq/Gen/Generated.v',
    '/verif/harness: generators, observation and canonicalisation of implementation behaviour (differential test, not a proof)',
    'axioms declared by this development: none',
]

PROPS = {
    'C15': {
        'coq': ['Props/C15.v', 'Tie/T_C15.v'],
        'rule': 'cases are generated from one splitmix64 stream: frames of boundary-biased channel ids (empty/1/127-129/16383-16384 byte strings, NUL/0xFF bytes; integers 0,1,127,128,2^14,2^32-1,2^63,2^64-1) and payloads (empty, 1 byte, header-like, random); demux of valid, mutated, truncated, over-long and non-minimal inputs; end-to-end tells/asks between two real muxes over memswarm with 1-6 near-colliding channels open, plus raw bytes injected beneath the receiving mux. distinct = distinct case text; all cases count as non-trivial except frames with an empty channel and empty payload',
        'theorems': 'C15_roundtrip, C15_injective, C15_prefix_free, C15_isolation, C15_never_cross, C15_no_panic, C15_body_is_suffix (all channel ids of each kind, all payloads, all sets of open channels)',
        'trusted': ['encoding/binary PutUvarint/Uvarint/BigEndian modelled arithmetically in coq/Lib/Varint.v (tied by correspondence on captured frames)',
                    'sync.Map lookup by channel id modelled as list membership'],
        'level_text': 'Theorems (closed under the global context) prove round-trip, injectivity, prefix-freedom and isolation of the framing model for every channel id, payload and set of open channels; the model is tied to the code on every run by running the real muxes and the extracted model on the same generated cases (frames captured from the wire, demux of adversarial bytes, end-to-end dispatch between two muxes).',
        'level_note': 'Trusted: Coq kernel, extraction + driver.ml, harness, translator; encoding/binary and sync.Map are modelled. The proof is about coq/Model/Mux.v; the correspondence is a differential test over generated cases.',
        'assumptions': ['memswarm delivers muxed frames unchanged (it is the transport under test in C01)'],
    },
}
